"""C03 -- hierarchical assembly is the level-wise Galerkin restriction of tensor-product assembly."""
from pyvc import solve
from contracts import hdiscr_c03

LEVEL = 'other'
BOUNDED_MODULE = 'bounded.C03'
EXPLANATION = ('the index bookkeeping of HDiscretization (rows to assemble, neighbour sets, bounding boxes, partial Kronecker prolongations) works on '
               'numpy/scipy objects and python sets of tuples whose contracts are outside the executor\'s reach; the property is therefore decided '
               'by a bounded run-time contract on the compiled code: every entry of the hierarchical matrix/vector equals the form applied to the two '
               'hierarchical basis functions with the quadrature of the finer level (reference built from full tensor-product assemblies per level '
               'and tensor-product prolongations), for HB and THB, symmetric flag on/off, bdspecs None/[]/faces, over enumerated and random refinement '
               'histories. Proved: the THB branch of assemble_matrix returns (T^T A_hb T).tocsr() with T = hs.thb_to_hb(), assembles A_hb with '
               'truncate switched off and restores the flag on every path.')
ASSUMPTIONS = ['matrix algebra in the THB-branch contract is uninterpreted (congruence); that T^T A T is the THB matrix rests on thb_to_hb, which the bounded tier compares with a transform computed from the definition of truncation (knot insertion level by level, dropping the coefficients of the functions of each finer level\'s space) and then replaces by it',
               'the reference uses pyiga\'s own tensor-product assembler (C01/C09) and bspline.prolongation (C05 bounded) as oracles',
               'equality to 1e-10 relative; "quadrature of the finer level" is checked exactly through the level-wise reference, and the I^T A_fine I '
               'form only for polynomial integrands on affine geometries']


def contracts(tier):
    return hdiscr_c03.CONTRACTS


def extra_obligations(tier):
    from contracts import hierarchical
    return [solve.custom_result('hierarchical:HSpace[cache-invalidation]', hierarchical.F, 'HSpace.refine / _clear_cache', hierarchical.cache_invalidation_obligations)]


MANIFEST = {
    'category': 'other',
    'technique': 'run-time contract "hierarchical entry = level-wise Galerkin restriction of the tensor-product assembly" on the compiled code over enumerated/random refinement histories (bounded); pyvc contract on the THB branch of HDiscretization.assemble_matrix (uninterpreted matrix algebra)',
    'text': 'Bounded on the compiled code: for 1D/2D refinement histories (exhaustive short, random multi-level, deep narrow), p 1-3, disparity 1/2/inf, bdspecs None/[]/faces, forms mass, stiffness, convection-reaction with coefficient field (nonsymmetric), weighted mass with physical field, functionals L2 and gradient, affine and non-affine geometries: every entry of assemble_matrix/assemble_functional/assemble_rhs/assemble(problem, hspace) equals the form on the two hierarchical basis functions integrated with the finer level\'s quadrature; THB = congruence/transposed transform by thb_to_hb; symmetric=True equals symmetric=False for symmetric forms; for polynomial integrands the matrix equals I^T A_fine I. Proved: the THB branch of assemble_matrix computes (T^T A_hb T).tocsr(), runs the HB assembly with truncate off and restores the flag.',
    'note': 'bounded except for the THB-branch contract; oracles are the tensor-product assembler and bspline.prolongation.',
}
