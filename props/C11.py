"""C11 -- relaxation and multigrid are consistent, contractive iterations."""
from pyvc import solve
from contracts import relaxation_cy, solvers, hierarchical

LEVEL = 'proof'
BOUNDED_MODULE = 'bounded.C11'
EXPLANATION = ('the unchecked Gauss-Seidel kernels are verified from the Cython source (memory safety, visit order, textbook row update as a '
               'write-time contract against recursively specified row sums, fixed-point lemma); the python dispatch is checked against the '
               'kernel preconditions (row ranges (0,N,1)/(N-1,-1,-1), index lists, symmetric = forward;backward); iterative_solve and twogrid '
               'exits are proved; energy-norm monotonicity, multigrid fixed point and smoothing sets are bounded on the real code.')
ASSUMPTIONS = ['CSR well-formedness (indptr monotone, column indices in range, lengths consistent) is the precondition of the kernels',
               'row sums are specified by the recurrences gs_offdiag / gs_diag (definitional axioms assumed); a duplicate column entry makes '
               'the kernel use the last diagonal entry (canonical CSR = no duplicates is not required for safety)',
               'abstract vectors/matrices are elements of an uninterpreted sort; numpy float division does not raise',
               'scipy.sparse.issparse / isspmatrix_csr / np.asanyarray are replaced by their meaning for the CSR instance of the dispatch contract',
               'convergence of twogrid / solve_hmultigrid (liveness) is only sampled in the bounded tier']


def contracts(tier):
    return relaxation_cy.CONTRACTS + solvers.CONTRACTS_C11


def extra_obligations(tier):
    _pu = solve.custom_result('paramuse:C11', 'pyiga/solvers.py', 'all functions', __import__('pyvc.paramuse', fromlist=['x']).obligations(['pyiga/solvers.py'], 'paramuse'))
    _r = [solve.custom_result('relaxation_cy:gauss_seidel[lemma]', relaxation_cy.F, 'gauss_seidel', relaxation_cy.fixed_point_lemma),
            solve.custom_result('solvers:gauss_seidel[symmetric]', solvers.F, 'gauss_seidel', solvers.gs_symmetric_obligations),
            # the smoothing sets and Dirichlet tables of the local multigrid are memoized on the HSpace: refine() must invalidate all of them
            solve.custom_result('hierarchical:HSpace[cache-invalidation]', hierarchical.F, 'HSpace.refine / _clear_cache', hierarchical.cache_invalidation_obligations)]
    return list(_r) + [_pu]

MANIFEST = {
    'category': 'proof',
    'technique': 'contract-based deductive verification (pyvc VCs from the Cython/Python source with loop invariants, ghost visit counters and recursively specified row sums; z3/cvc5); bounded run-time contracts for the numeric clauses',
    'text': 'relaxation_cy.gauss_seidel / gauss_seidel_indexed: every access is in bounds for any well-formed CSR matrix, rows are visited in the stated order, each visited row with nonzero diagonal receives exactly (b_i - sum_{j!=i} a_ij x_j)/a_ii with the current x and nothing else is written; an exact solution is a fixed point (lemma). solvers.gauss_seidel enters the kernels with (0,N,1) resp. (N-1,-1,-1), the reversed flag for backward, and symmetric = forward then backward per iteration. iterative_solve returns a finite count only after res/res0 < tol was evaluated for the returned iterate and inf only at the iteration limit; twogrid stops only on its three listed conditions and accepts array start vectors. Energy-norm monotonicity for SPD systems in all storage formats, the multigrid fixed point, smoothing sets (contain the new dofs, no Dirichlet dof) for 4 strategies x 5 smoothers x HB/THB and solve_hmultigrid stopping are checked on the real code over the stated finite domain (bounded).',
    'note': 'double as real; CSR well-formedness required; abstract vectors for the drivers; liveness/convergence not proved; bounded domain in evidence.',
}
